use vstd::prelude::*;
verus! {
#[verifier::external_type_specification] #[verifier::external_body] pub struct ExUrl(url::Url);
pub uninterp spec fn url_host(u: &url::Url) -> Option<Seq<char>>;
pub uninterp spec fn url_scheme_is(u: &url::Url, s: &str) -> bool;
pub uninterp spec fn lower(s: Seq<char>) -> Seq<char>;

pub assume_specification [url::Url::host_str] (u: &url::Url) -> (r: std::option::Option<&str>)
    ensures (r matches Some(h) ==> url_host(u) == Some(h@)) && (r is None ==> url_host(u) is None);
pub assume_specification [url::Url::scheme] (u: &url::Url) -> (r: &str)
    ensures (r == "http") == url_scheme_is(u, "http"), (r == "https") == url_scheme_is(u, "https");

pub open spec fn ends_with_seq(s: Seq<char>, p: Seq<char>) -> bool {
    p.len() <= s.len() && s.subrange(s.len() - p.len(), s.len() as int) == p
}
/// from the property: equals, or is a subdomain of, a non-empty entry (case-insensitive)
pub open spec fn bypass(h: Seq<char>, e: Seq<char>) -> bool {
    let le = lower(e);
    le.len() > 0 && (h == le || (h.len() > le.len() && ends_with_seq(h, le) && h[h.len() - le.len() - 1] == '.'))
}

// R1: `S.iter().any(F)` outlined; contract over the slice and the closure's own ensures
#[verifier::external_body]
pub fn vp_any<F: Fn(&String) -> bool>(v: &Vec<String>, f: F) -> (r: bool)
    requires forall|i: int| 0 <= i < v@.len() ==> call_requires(f, (&v@[i],)),
    ensures
        r ==> exists|i: int| 0 <= i < v@.len() && call_ensures(f, (&v@[i],), true),
        !r ==> forall|i: int| 0 <= i < v@.len() ==> call_ensures(f, (&v@[i],), false),
{ v.iter().any(f) }

// R6: candidate repair of the matching rule as its own small function, contract = `bypass`; K-checked on short strings
#[verifier::external_body]
pub fn host_matches(host: &str, entry: &str) -> (r: bool)
    ensures r == bypass(host@, entry@)
{ unimplemented!() }

pub struct ProxySettings {
    http_proxy: Option<url::Url>,
    https_proxy: Option<url::Url>,
    disable_proxies: bool,
    no_proxy_hosts: Vec<String>,
}

impl ProxySettings {
    pub closed spec fn sp_disabled(&self) -> bool { self.disable_proxies }
    pub closed spec fn sp_http(&self) -> Option<url::Url> { self.http_proxy }
    pub closed spec fn sp_https(&self) -> Option<url::Url> { self.https_proxy }
    pub closed spec fn any_bypass(&self, h: Seq<char>) -> bool {
        exists|i: int| 0 <= i < self.no_proxy_hosts@.len() && bypass(h, (#[trigger] self.no_proxy_hosts@[i])@)
    }
    pub open spec fn eligible(&self, url: &url::Url) -> bool {
        !self.sp_disabled() && (url_host(url) matches Some(h) && !self.any_bypass(h))
    }
    pub fn for_url(&self, url: &url::Url) -> (res: Option<&url::Url>)
        ensures
            !self.eligible(url) ==> res is None,
            self.eligible(url) && url_scheme_is(url, "http") ==> (res matches Some(p) ==> self.sp_http() == Some(*p)) && (res is None ==> self.sp_http() is None),
            self.eligible(url) && url_scheme_is(url, "https") ==> (res matches Some(p) ==> self.sp_https() == Some(*p)) && (res is None ==> self.sp_https() is None),
            self.eligible(url) && !url_scheme_is(url, "http") && !url_scheme_is(url, "https") ==> res is None,
    {
        if self.disable_proxies {
            return None;
        }

        if let Some(host) = url.host_str() {
            if !vp_any(&self
                .no_proxy_hosts, |x: &String| -> (b: bool) ensures b == bypass(host@, x@) { host_matches(host, x.as_str()) })
            {
                return match url.scheme() {
                    "http" => self.http_proxy.as_ref(),
                    "https" => self.https_proxy.as_ref(),
                    _ => None,
                };
            }
        }
        None
    }
}
}
fn main(){}
