#!/bin/bash
bash vp/setup.sh >/dev/null 2>&1
python3 vp/crossmatrix.py 5 diag
