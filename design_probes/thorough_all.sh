#!/bin/bash
# run from a /verif snapshot: setup then thorough tier of every check, two at a time
bash vp/setup.sh >/dev/null 2>&1
run() { VP_GEN=/tmp/gen_th_$1 python3 vp/check.py $1 --tier thorough 2>&1 | grep -E "^OK|VIOLATION|UNDECIDED|WEAK|FALSE|KNOWN|sensitivity" | cut -c1-260 | sed "s/^/[$1] /"; }
for pair in "C01 C11" "C02 C15" "C03 C17" "C04 C18" "C05 C19" "C06 C14" "C07" "C08" "C09" "C10" "C12" "C16"; do
  for p in $pair; do run $p & done; wait
done
