use vstd::prelude::*;
use std::convert::{From, TryInto};
use std::sync::Arc;
use http::{header::{HeaderValue, IntoHeaderName, HeaderName}, HeaderMap, Method};
verus! {
#[verifier::external_type_specification] #[verifier::external_body] #[verifier::accept_recursive_types(T)] pub struct ExHeaderMap<T>(HeaderMap<T>);
#[verifier::external_type_specification] #[verifier::external_body] pub struct ExHeaderValue(HeaderValue);
#[verifier::external_type_specification] #[verifier::external_body] pub struct ExHeaderName(HeaderName);

pub uninterp spec fn hm_view<T>(h: &HeaderMap<T>) -> Seq<(Seq<u8>, T)>;
pub uninterp spec fn key_view<K>(k: K) -> Seq<u8>;

#[verifier::external_body] pub struct Error(Box<u8>);
pub type Result<T = ()> = std::result::Result<T, Error>;

pub open spec fn without<T>(s: Seq<(Seq<u8>, T)>, k: Seq<u8>) -> Seq<(Seq<u8>, T)> { s.filter(|e: (Seq<u8>, T)| e.0 != k) }

pub assume_specification<T, K: IntoHeaderName>[ HeaderMap::<T>::insert::<K> ](h: &mut HeaderMap<T>, k: K, v: T) -> (r: Option<T>)
    ensures hm_view(final(h)) == without(hm_view(old(h)), key_view(k)).push((key_view(k), v));

fn header_insert<H, V>(headers: &mut HeaderMap, header: H, value: V) -> (res: Result)
where
    H: IntoHeaderName,
    V: TryInto<HeaderValue>,
    Error: From<V::Error>,
    ensures res is Ok ==> exists|v: HeaderValue| hm_view(final(headers)) == without(hm_view(old(headers)), key_view(header)).push((key_view(header), v)),
            res is Err ==> hm_view(final(headers)) == hm_view(old(headers)),
{
    let value = value.try_into()?;
    headers.insert(header, value);
    Ok(())
}
}
fn main(){}
