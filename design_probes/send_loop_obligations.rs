use vstd::prelude::*;
use std::sync::Arc;
use std::time::{Duration, Instant};
use http::{header::{HeaderValue, HOST}, HeaderMap, Method, StatusCode};
use url::Url;
verus! {
#[verifier::external_type_specification] #[verifier::external_body] pub struct ExUrl(Url);
#[verifier::external_type_specification] #[verifier::external_body] #[verifier::accept_recursive_types(T)] pub struct ExHeaderMap<T>(HeaderMap<T>);
#[verifier::external_type_specification] #[verifier::external_body] pub struct ExHeaderValue(HeaderValue);
#[verifier::external_type_specification] #[verifier::external_body] pub struct ExStatusCode(StatusCode);
#[verifier::external_type_specification] #[verifier::external_body] pub struct ExMethod(Method);
#[verifier::external_type_specification] #[verifier::external_body] pub struct ExInstant(Instant);

#[verifier::external_type_specification] #[verifier::external_body] pub struct ExHeaderName(http::HeaderName);
pub assume_specification [std::time::Instant::now] () -> std::time::Instant;
pub assume_specification [<Instant as std::ops::Add<Duration>>::add] (a: Instant, b: Duration) -> Instant;
pub assume_specification [url::Url::scheme] (u: &url::Url) -> (r: &str) ensures (r == "http") == url_is_http(u);
pub assume_specification [<url::Url as Clone>::clone] (u: &url::Url) -> (r: url::Url) ensures r == *u;
pub assume_specification<T, K: http::header::AsHeaderName> [http::HeaderMap::<T>::get] (h: &http::HeaderMap<T>, k: K) -> std::option::Option<&T>;
pub assume_specification [std::string::String::from_utf8_lossy] (b: &[u8]) -> std::borrow::Cow<'_, str>;
pub assume_specification [http::HeaderValue::as_bytes] (b: &HeaderValue) -> &[u8];
pub assume_specification<'a, 'b, B: ?Sized + ToOwned> [<std::borrow::Cow<'a, B> as std::ops::Deref>::deref] (b: &'b std::borrow::Cow<'a, B>) -> &'b B;
#[verifier::external_body]
pub fn vp_is_redirect_status(s: StatusCode) -> (r: bool)
    ensures r == (status_u16(s) == 301 || status_u16(s) == 302 || status_u16(s) == 303 || status_u16(s) == 307 || status_u16(s) == 308)
{ matches!(s, StatusCode::MOVED_PERMANENTLY | StatusCode::FOUND | StatusCode::SEE_OTHER | StatusCode::TEMPORARY_REDIRECT | StatusCode::PERMANENT_REDIRECT) }
#[verifier::external_body]
pub fn vp_get_location(h: &HeaderMap) -> Option<&HeaderValue> { h.get(http::header::LOCATION) }
#[verifier::external_body] pub fn vp_deadline(t: Duration) -> Instant { Instant::now() + t }
// ---- stand-ins for repo items outside this unit (trusted contracts) ----
#[verifier::external_body] pub struct Error(Box<u8>);
pub type Result<T = ()> = std::result::Result<T, Error>;
pub enum InvalidResponseKind { LocationHeader, RedirectionUrl }
pub enum ErrorKind { TooManyRedirections }
#[verifier::external_body] pub struct BaseStream(Box<u8>);
#[verifier::external_body] pub struct Response(Box<u8>);
#[verifier::external_body] pub struct ProxySettings(Box<u8>);
pub struct BaseSettings {
    pub max_redirections: u32,
    pub follow_redirects: bool,
    pub timeout: Option<Duration>,
    pub proxy_settings: ProxySettings,
}
pub struct ConnectInfo<'a> {
    pub url: &'a Url,
    pub proxy: Option<&'a Url>,
    pub base_settings: &'a BaseSettings,
    pub deadline: Option<Instant>,
}
pub uninterp spec fn status_u16(s: StatusCode) -> u16;
pub uninterp spec fn dialled(s: &BaseStream) -> (Url, Option<Url>);
pub uninterp spec fn url_is_http(u: &Url) -> bool;
pub uninterp spec fn proxy_for(p: &ProxySettings, u: &Url) -> Option<Url>;
pub open spec fn opt_url(p: Option<&Url>) -> Option<Url> { match p { Some(u) => Some(*u), None => None } }
pub uninterp spec fn resp_status(r: &Response) -> StatusCode;
pub uninterp spec fn resp_url(r: &Response) -> Url;

impl ProxySettings {
    #[verifier::external_body] pub fn for_url(&self, url: &Url) -> (r: Option<&Url>)
        ensures opt_url(r) == proxy_for(self, url)
    { unimplemented!() }
}
impl BaseStream {
    #[verifier::external_body] pub fn connect(info: &ConnectInfo) -> (r: Result<BaseStream>)
        ensures r matches Ok(s) ==> dialled(&s) == (*info.url, opt_url(info.proxy))
    { unimplemented!() }
}
impl Response {
    #[verifier::external_body] pub fn status(&self) -> (r: StatusCode) ensures r == resp_status(self) { unimplemented!() }
    #[verifier::external_body] pub fn headers(&self) -> &HeaderMap { unimplemented!() }
}
pub uninterp spec fn host_of(h: &HeaderMap) -> Option<Url>;   // ghost: which URL the Host field was derived from
#[verifier::external_body] pub fn set_host(headers: &mut HeaderMap, url: &Url) -> (r: Result)
    ensures r is Ok ==> host_of(final(headers)) == Some(*url)
{ unimplemented!() }
#[verifier::external_body] pub fn parse_response<B>(reader: BaseStream, request: &PreparedRequest<B>, url: &Url) -> (r: Result<Response>)
    ensures r matches Ok(resp) ==> resp_url(&resp) == *url
{ unimplemented!() }

pub struct PreparedRequest<B> {
    url: Url,
    method: Method,
    body: B,
    headers: HeaderMap,
    pub base_settings: Arc<BaseSettings>,
}

impl<B> PreparedRequest<B> {
    pub closed spec fn sp_settings(&self) -> BaseSettings { *self.base_settings }
    pub closed spec fn sp_headers(&self) -> HeaderMap { self.headers }
    pub closed spec fn sp_method(&self) -> Method { self.method }
    #[verifier::external_body] fn base_redirect_url(&self, location: &str, previous_url: &Url) -> Result<Url> { unimplemented!() }
    #[verifier::external_body] fn write_request(&mut self, writer: &mut BaseStream, url: &Url, proxy: Option<&Url>) -> (r: Result)
        requires
            dialled(old(writer)) == (*url, opt_url(proxy)),            // C08/C10: the request is written to the peer dialled for this hop
            host_of(&old(self).sp_headers()) == Some(if url_is_http(url) && proxy is Some { *proxy.unwrap() } else { *url }),
        ensures final(self).sp_settings() == old(self).sp_settings(), final(self).sp_method() == old(self).sp_method(), final(self).sp_headers() == old(self).sp_headers(),
    { unimplemented!() }

    pub fn send(&mut self) -> (res: Result<Response>)
        requires old(self).sp_settings().max_redirections < u32::MAX,
        ensures
            res matches Ok(resp) ==> (!old(self).sp_settings().follow_redirects || !({ let c = status_u16(resp_status(&resp)); c == 301 || c == 302 || c == 303 || c == 307 || c == 308 })),
    {
        let mut url = self.url.clone();

        let deadline = self.base_settings.timeout.map(|timeout| vp_deadline(timeout));
        let mut redirections = 0;

        loop
            invariant
                redirections <= self.base_settings.max_redirections,
                self.sp_settings() == old(self).sp_settings(),
                old(self).sp_settings().max_redirections < u32::MAX,
            decreases self.base_settings.max_redirections - redirections,
        {
            let ghost hop = url;
            let proxy = self.base_settings.proxy_settings.for_url(&url).cloned();
            proof { assert(proxy == proxy_for(&self.base_settings.proxy_settings, &hop)); }   // C10: proxy choice re-evaluated for this hop

            match (url.scheme(), &proxy) {
                ("http", Some(proxy)) => set_host(&mut self.headers, proxy)?,
                _ => set_host(&mut self.headers, &url)?,
            };

            let info = ConnectInfo {
                url: &url,
                proxy: proxy.as_ref(),
                base_settings: &self.base_settings,
                deadline,
            };
            let mut stream = BaseStream::connect(&info)?;

            self.write_request(&mut stream, &url, proxy.as_ref())?;
            let resp = parse_response(stream, self, &url)?;

            let is_redirect = vp_is_redirect_status(resp.status());
            if !self.base_settings.follow_redirects || !is_redirect {
                return Ok(resp);
            }

            proof { assert(self.base_settings.follow_redirects && is_redirect); assert(resp_url(&resp) == hop); }
            redirections += 1;
            if redirections > self.base_settings.max_redirections {
                return Err(ErrorKind::TooManyRedirections.into());
            }

            // Handle redirect
            let location = vp_get_location(resp
                .headers())
                .ok_or(InvalidResponseKind::LocationHeader)?;

            let location = String::from_utf8_lossy(location.as_bytes());

            url = self.base_redirect_url(&location, &url)?;
        }
    }
}
}
impl From<InvalidResponseKind> for Error { fn from(k: InvalidResponseKind) -> Error { unimplemented!() } }
impl From<ErrorKind> for Error { fn from(k: ErrorKind) -> Error { unimplemented!() } }
fn main(){}
