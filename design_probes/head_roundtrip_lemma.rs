use vstd::prelude::*;
verus! {
// ---------------- code-facing spec (same shape as parse_response_head_functional.rs) ----------------
pub open spec fn trim_sp(s: Seq<u8>) -> Seq<u8> decreases s.len() {
    if s.len() == 0 { s } else if s[0] == 32u8 { trim_sp(s.skip(1)) } else if s[s.len() - 1] == 32u8 { trim_sp(s.take(s.len() - 1)) } else { s }
}
pub open spec fn lf_to_sp(s: Seq<u8>) -> Seq<u8> { s.map_values(|b: u8| if b == 10u8 { 32u8 } else { b }) }
pub open spec fn first_idx(s: Seq<u8>, d: u8) -> int decreases s.len() {
    if s.len() == 0 { 0 } else if s[0] == d { 0 } else { 1 + first_idx(s.skip(1), d) }
}
pub open spec fn first_colon(s: Seq<u8>) -> Option<int> { let i = first_idx(s, 58u8); if i < s.len() { Some(i) } else { None } }
/// index of the first LF that is preceded by CR (strict CRLF), or w.len()
pub open spec fn first_crlf(w: Seq<u8>) -> int decreases w.len() {
    if w.len() < 2 { w.len() as int } else if w[0] == 13u8 && w[1] == 10u8 { 1 } else { 1 + first_crlf(w.skip(1)) }
}
pub open spec fn strict_line(w: Seq<u8>) -> Option<(Seq<u8>, int)> {
    let i = first_crlf(w);
    if 1 <= i < w.len() && i + 1 <= 16384 { Some((w.take(i - 1), i + 1)) } else { None }
}
pub uninterp spec fn hn_ok(b: Seq<u8>) -> bool;
pub uninterp spec fn hn_canon(b: Seq<u8>) -> Seq<u8>;
pub uninterp spec fn hv_ok(b: Seq<u8>) -> bool;

pub open spec fn rest(w: Seq<u8>, acc: Seq<(Seq<u8>, Seq<u8>)>, max: nat) -> Option<(Seq<(Seq<u8>, Seq<u8>)>, Seq<u8>)>
    decreases w.len(),
{
    match strict_line(w) {
        None => None,
        Some((line, n)) =>
            if n < 2 || n > w.len() { None }
            else if line.len() == 0 { Some((acc, w.skip(n))) }
            else if acc.len() == max { None }
            else {
                match first_colon(line) {
                    None => None,
                    Some(col) => {
                        let name = trim_sp(line.take(col));
                        let value = trim_sp(lf_to_sp(line.skip(col + 1)));
                        if !hn_ok(name) { rest(w.skip(n), acc, max) }
                        else if !hv_ok(value) { None }
                        else { rest(w.skip(n), acc.push((hn_canon(name), value)), max) }
                    }
                }
            }
    }
}

// ---------------- RFC side: what a server sends ----------------
pub open spec fn crlf() -> Seq<u8> { seq![13u8, 10u8] }
pub open spec fn no_byte(s: Seq<u8>, b: u8) -> bool { forall|i: int| 0 <= i < s.len() ==> s[i] != b }
/// field-name: a token `http` accepts (so: no colon, no SP, no CR/LF); field-value: visible ASCII / SP / obs-text, no CR,
/// no LF, no surrounding SP, accepted by `http`; the line fits the 16 KiB limit
pub open spec fn rfc_field(f: (Seq<u8>, Seq<u8>)) -> bool {
    let (n, v) = f;
    n.len() >= 1 && hn_ok(n) && no_byte(n, 58u8) && no_byte(n, 32u8) && no_byte(n, 10u8) && no_byte(n, 13u8)
        && hv_ok(v) && no_byte(v, 10u8) && no_byte(v, 13u8)
        && (v.len() > 0 ==> v[0] != 32u8 && v[v.len() - 1] != 32u8)
        && n.len() + v.len() + 4 <= 16384
}
pub open spec fn field_line(f: (Seq<u8>, Seq<u8>)) -> Seq<u8> { f.0 + seq![58u8, 32u8] + f.1 }   // "name: value"
pub open spec fn head_fields(fs: Seq<(Seq<u8>, Seq<u8>)>) -> Seq<u8> decreases fs.len() {
    if fs.len() == 0 { crlf() } else { field_line(fs[0]) + crlf() + head_fields(fs.skip(1)) }
}
pub open spec fn canon(fs: Seq<(Seq<u8>, Seq<u8>)>) -> Seq<(Seq<u8>, Seq<u8>)> { fs.map_values(|f: (Seq<u8>, Seq<u8>)| (hn_canon(f.0), f.1)) }
pub open spec fn all_rfc(fs: Seq<(Seq<u8>, Seq<u8>)>) -> bool { forall|i: int| 0 <= i < fs.len() ==> rfc_field(#[trigger] fs[i]) }

// ---------------- lemmas ----------------
proof fn lemma_first_idx_at(s: Seq<u8>, d: u8, j: int)
    requires 0 <= j < s.len(), s[j] == d, forall|i: int| 0 <= i < j ==> s[i] != d,
    ensures first_idx(s, d) == j,
    decreases j,
{
    if j > 0 {
        let t = s.skip(1);
        assert forall|i: int| 0 <= i < j - 1 implies t[i] != d by { assert(t[i] == s[i + 1]); }
        lemma_first_idx_at(t, d, j - 1);
    }
}
proof fn lemma_first_crlf_at(w: Seq<u8>, j: int)
    requires 1 <= j < w.len(), w[j - 1] == 13u8, w[j] == 10u8,
        forall|i: int| 1 <= i < j ==> !(w[i - 1] == 13u8 && #[trigger] w[i] == 10u8),
    ensures first_crlf(w) == j,
    decreases j,
{
    if j == 1 { } else {
        let t = w.skip(1);
        assert(!(w[0] == 13u8 && w[1] == 10u8));
        assert(t[j - 2] == 13u8 && t[j - 1] == 10u8);
        assert forall|i: int| 1 <= i < j - 1 implies !(t[i - 1] == 13u8 && #[trigger] t[i] == 10u8) by { assert(t[i - 1] == w[i]); assert(t[i] == w[i + 1]); }
        lemma_first_crlf_at(t, j - 1);
    }
}
proof fn lemma_trim_noop(s: Seq<u8>)
    requires s.len() > 0 ==> s[0] != 32u8 && s[s.len() - 1] != 32u8,
    ensures trim_sp(s) == s,
{ }
proof fn lemma_trim_lead_sp(v: Seq<u8>)
    requires v.len() > 0 ==> v[0] != 32u8 && v[v.len() - 1] != 32u8,
    ensures trim_sp(seq![32u8] + v) == v,
{
    let s = seq![32u8] + v;
    assert(s.skip(1) =~= v);
    lemma_trim_noop(v);
}
/// a line without LF, followed by CRLF, is read back exactly
proof fn lemma_strict_line(l: Seq<u8>, tail: Seq<u8>)
    requires no_byte(l, 10u8), l.len() + 2 <= 16384,
    ensures strict_line(l + crlf() + tail) == Some((l, l.len() as int + 2)),
{
    let w = l + crlf() + tail;
    let j = l.len() as int + 1;
    assert(w[j - 1] == 13u8 && w[j] == 10u8);
    assert forall|i: int| 1 <= i < j implies !(w[i - 1] == 13u8 && #[trigger] w[i] == 10u8) by {
        if i < l.len() { assert(w[i] == l[i]); } else { assert(w[i] == 13u8); }
    }
    lemma_first_crlf_at(w, j);
    assert(w.take(j - 1) =~= l);
}

/// C04 (round trip): the header block a server sends for `fs`, followed by any body bytes, parses to exactly
/// `fs` (names canonicalised, values byte-exact, order and duplicates kept) and stops right after the blank line.
pub proof fn head_roundtrip(fs: Seq<(Seq<u8>, Seq<u8>)>, acc: Seq<(Seq<u8>, Seq<u8>)>, body: Seq<u8>, max: nat)
    requires all_rfc(fs), acc.len() + fs.len() <= max,
    ensures rest(head_fields(fs) + body, acc, max) == Some((acc + canon(fs), body)),
    decreases fs.len(),
{
    if fs.len() == 0 {
        let w = head_fields(fs) + body;
        assert(w =~= Seq::<u8>::empty() + crlf() + body);
        lemma_strict_line(Seq::<u8>::empty(), body);
        assert(w.skip(2) =~= body);
        assert(acc + canon(fs) =~= acc);
    } else {
        let f = fs[0]; let (n, v) = f;
        assert(rfc_field(f));
        let l = field_line(f);
        let tail = head_fields(fs.skip(1)) + body;
        let w = head_fields(fs) + body;
        assert(w =~= l + crlf() + tail);
        assert(no_byte(l, 10u8)) by {
            assert forall|i: int| 0 <= i < l.len() implies l[i] != 10u8 by {
                if i < n.len() { assert(l[i] == n[i]); } else if i >= n.len() + 2 { assert(l[i] == v[i - n.len() - 2]); }
            }
        }
        lemma_strict_line(l, tail);
        let k = l.len() as int + 2;
        assert(w.skip(k) =~= tail);
        // the first colon is the separator
        assert(l[n.len() as int] == 58u8);
        assert forall|i: int| 0 <= i < n.len() implies l[i] != 58u8 by { assert(l[i] == n[i]); }
        lemma_first_idx_at(l, 58u8, n.len() as int);
        let col = n.len() as int;
        assert(l.take(col) =~= n);
        assert(n[0] != 32u8 && n[n.len() - 1] != 32u8);
        lemma_trim_noop(n);
        assert(l.skip(col + 1) =~= seq![32u8] + v);
        assert(lf_to_sp(seq![32u8] + v) =~= seq![32u8] + v);
        lemma_trim_lead_sp(v);
        // induction on the remaining fields
        assert forall|i: int| 0 <= i < fs.skip(1).len() implies rfc_field(#[trigger] fs.skip(1)[i]) by { assert(fs.skip(1)[i] == fs[i + 1]); }
        head_roundtrip(fs.skip(1), acc.push((hn_canon(n), v)), body, max);
        assert(acc.push((hn_canon(n), v)) + canon(fs.skip(1)) =~= acc + canon(fs));
    }
}
}
fn main(){}
