use vstd::prelude::*;
use std::io;
use std::str;
verus! {
#[verifier::external_type_specification]
#[verifier::external_body]
pub struct ExIoError(io::Error);
#[verifier::external_type_specification]
#[verifier::external_body]
pub struct ExUtf8Error(str::Utf8Error);
#[verifier::external_type_specification]
#[verifier::external_body]
pub struct ExParseIntError(std::num::ParseIntError);

pub enum InvalidResponseKind { ChunkSize, Chunk }

pub uninterp spec fn utf8_ok(b: Seq<u8>) -> bool;
pub uninterp spec fn trim_spec(s: Seq<char>) -> Seq<char>;
pub uninterp spec fn hex_spec(s: Seq<char>) -> Option<usize>;

pub assume_specification<'a>[ core::str::from_utf8 ](v: &'a [u8]) -> (r: Result<&'a str, str::Utf8Error>)
    ensures r is Ok <==> utf8_ok(v@), r matches Ok(s) ==> s.view().len() >= 0;
pub assume_specification[ str::trim ](s: &str) -> (r: &str)
    ensures r@ == trim_spec(s@);
pub assume_specification[ usize::from_str_radix ](s: &str, radix: u32) -> (r: Result<usize, std::num::ParseIntError>)
    ensures radix == 16 ==> (match r { Ok(v) => hex_spec(s@) == Some(v), Err(_) => hex_spec(s@) is None });

pub assume_specification<T, U, D: FnOnce() -> U, F: FnOnce(T) -> U>[ Option::<T>::map_or_else ](o: Option<T>, default: D, f: F) -> (r: U)
    requires o is None ==> default.requires(()), o matches Some(x) ==> f.requires((x,)),
    ensures o is None ==> default.ensures((), r), o matches Some(x) ==> f.ensures((x,), r);

pub assume_specification<T, E, U, F: FnOnce(T) -> Result<U, E>>[ Result::<T, E>::and_then ](o: Result<T, E>, f: F) -> (r: Result<U, E>)
    requires o matches Ok(x) ==> f.requires((x,)),
    ensures o matches Ok(x) ==> f.ensures((x,), r), o matches Err(e) ==> r == Err::<U, E>(e);

pub assume_specification<'a, T, P: FnMut(&'a T) -> bool>[ <std::slice::Iter<'a, T> as Iterator>::position ](it: &mut std::slice::Iter<'a, T>, pred: P) -> (r: Option<usize>)
    where std::slice::Iter<'a, T>: Sized
;

fn parse_chunk_size(line: &[u8]) -> io::Result<usize> {
    line.iter()
        .position(|b_ref| { let b = *b_ref; b == b';' })
        .map_or_else(|| str::from_utf8(line), |idx| str::from_utf8(&line[..idx]))
        .map_err(|_vp0| InvalidResponseKind::ChunkSize)
        .and_then(|line| usize::from_str_radix(line.trim(), 16).map_err(|_vp1| InvalidResponseKind::ChunkSize))
        .map_err(|e| e.into())
}
}
impl From<InvalidResponseKind> for io::Error {
    fn from(kind: InvalidResponseKind) -> io::Error {
        io::Error::new(io::ErrorKind::Other, "x")
    }
}
fn main(){}
