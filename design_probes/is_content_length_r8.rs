use vstd::prelude::*;
use http::header::{HeaderMap, HeaderValue, ValueIter, CONTENT_LENGTH};
verus! {
#[verifier::external_type_specification] #[verifier::external_body] #[verifier::accept_recursive_types(T)] pub struct ExHeaderMap<T>(HeaderMap<T>);
#[verifier::external_type_specification] #[verifier::external_body] pub struct ExHeaderValue(HeaderValue);
#[verifier::external_type_specification] #[verifier::external_body] #[verifier::accept_recursive_types(T)] pub struct ExValueIter<'a, T>(ValueIter<'a, T>);

#[verifier::external_body] pub struct Error(Box<u8>);
pub type Result<T = ()> = std::result::Result<T, Error>;
pub enum InvalidResponseKind { ContentLength }
pub assume_specification[ <Error as From<InvalidResponseKind>>::from ](e: InvalidResponseKind) -> (r: Error);

pub uninterp spec fn cl_values(h: &HeaderMap) -> Seq<HeaderValue>;
pub uninterp spec fn remaining<'a>(it: &ValueIter<'a, HeaderValue>) -> Seq<HeaderValue>;
pub uninterp spec fn cl_parse(v: &HeaderValue) -> Option<u64>;

#[verifier::external_body]
pub fn vp_get_all_cl<'a>(h: &'a HeaderMap) -> (it: ValueIter<'a, HeaderValue>)
    ensures remaining(&it) == cl_values(h)
{ h.get_all(CONTENT_LENGTH).into_iter() }


#[verifier::external_body]
pub fn vp_next<'a>(it: &mut ValueIter<'a, HeaderValue>) -> (r: Option<&'a HeaderValue>)
    ensures
        remaining(old(it)).len() == 0 ==> r is None && remaining(final(it)) == remaining(old(it)),
        remaining(old(it)).len() > 0 ==> r == Some(&remaining(old(it))[0]) && remaining(final(it)) == remaining(old(it)).skip(1),
{ it.next() }

#[verifier::external_body]
fn parse_content_length(val: &HeaderValue) -> (r: Result<u64>)
    ensures r matches Ok(n) ==> cl_parse(val) == Some(n), r is Err ==> cl_parse(val) is None
{ unimplemented!() }

/// all values parse and agree
pub open spec fn agree(vs: Seq<HeaderValue>, n: u64) -> bool { forall|i: int| 0 <= i < vs.len() ==> cl_parse(&vs[i]) == Some(n) }

fn is_content_length(headers: &HeaderMap) -> (res: Result<Option<u64>>)
    ensures
        res matches Ok(None) ==> cl_values(headers).len() == 0,
        res matches Ok(Some(n)) ==> cl_values(headers).len() > 0 && agree(cl_values(headers), n),
        res is Err ==> exists|i: int, j: int| 0 <= i < cl_values(headers).len() && 0 <= j < cl_values(headers).len()
            && (cl_parse(&cl_values(headers)[i]) is None || cl_parse(&cl_values(headers)[i]) != cl_parse(&cl_values(headers)[j])),
{
    let mut last = None;
    {
        let mut vp_it = vp_get_all_cl(headers);
        let ghost all = cl_values(headers);
        loop
            invariant
                remaining(&vp_it).len() <= all.len(),
                remaining(&vp_it) == all.skip(all.len() - remaining(&vp_it).len()),
                last is None ==> remaining(&vp_it).len() == all.len(),
                last matches Some(n) ==> remaining(&vp_it).len() < all.len() && agree(all.take(all.len() - remaining(&vp_it).len()), n),
                all == cl_values(headers),
            ensures remaining(&vp_it).len() == 0,
            decreases remaining(&vp_it).len(),
        {
            let ghost old_it = vp_it;
            match vp_next(&mut vp_it) {
                None => break,
                Some(val) => {
                    let val = parse_content_length(val)?;
                    last = Some(match last {
                        None => val,
                        Some(last) if last == val => val,
                        _ => {
                            proof {
                                let k = all.len() - remaining(&old_it).len();
                                assert(all[k] == remaining(&old_it)[0]);
                                assert(all.take(k)[0] == all[0]);
                            }
                            return Err(InvalidResponseKind::ContentLength.into());
                        }
                    });
                }
            }
        }
    }
    Ok(last)
}
}
impl From<InvalidResponseKind> for Error { fn from(k: InvalidResponseKind) -> Error { unimplemented!() } }
fn main(){}
