use vstd::prelude::*;
use std::cmp;
use vstd::std_specs::cmp::OrdSpec;
use std::io::{self, Read, BufReader, BufRead};
verus! {
pub mod sfx {
use vstd::prelude::*;
pub open spec fn is_suffix(a: Seq<u8>, b: Seq<u8>) -> bool {
    a.len() <= b.len() && a == b.subrange(b.len() - a.len(), b.len() as int)
}

pub broadcast proof fn lemma_suffix_refl(a: Seq<u8>)
    ensures #[trigger] is_suffix(a, a)
{ assert(a =~= a.subrange(0, a.len() as int)); }

pub broadcast proof fn lemma_suffix_skip(a: Seq<u8>, k: int)
    requires 0 <= k <= a.len()
    ensures #[trigger] is_suffix(a.skip(k), a)
{ assert(a.skip(k) =~= a.subrange(a.len() - a.skip(k).len(), a.len() as int)); }

pub broadcast proof fn lemma_suffix_sub(a: Seq<u8>, k: int)
    requires 0 <= k <= a.len()
    ensures #[trigger] is_suffix(a.subrange(k, a.len() as int), a)
{ assert(a.subrange(k, a.len() as int) =~= a.subrange(a.len() - a.subrange(k, a.len() as int).len(), a.len() as int)); }

pub broadcast proof fn lemma_suffix_trans(a: Seq<u8>, b: Seq<u8>, c: Seq<u8>)
    requires #[trigger] is_suffix(a, b), #[trigger] is_suffix(b, c)
    ensures is_suffix(a, c)
{ assert(a =~= c.subrange(c.len() - a.len(), c.len() as int)); }

pub broadcast group group_suffix { lemma_suffix_refl, lemma_suffix_skip, lemma_suffix_sub, lemma_suffix_trans }
}
pub use sfx::is_suffix;

#[verifier::external_type_specification]
#[verifier::external_body]
pub struct ExIoError(io::Error);

#[verifier::external_type_specification]
pub struct ExIoErrorKind(io::ErrorKind);

#[verifier::external_type_specification]
#[verifier::external_body]
#[verifier::accept_recursive_types(R)]
pub struct ExBufReader<R: ?Sized>(BufReader<R>);

#[verifier::external_trait_specification]
pub trait ExRead {
    type ExternalTraitSpecificationFor: Read;
}

pub uninterp spec fn wire<R: ?Sized>(r: &BufReader<R>) -> Seq<u8>;

broadcast use sfx::group_suffix;


pub assume_specification<R: Read + ?Sized>[ <BufReader<R> as Read>::read_exact ](r: &mut BufReader<R>, buf: &mut [u8]) -> (res: io::Result<()>)
    ensures
        final(buf)@.len() == old(buf)@.len(),
        res.is_ok() ==> old(buf)@.len() <= wire(old(r)).len()
            && final(buf)@ == wire(old(r)).subrange(0, old(buf)@.len() as int)
            && wire(final(r)) == wire(old(r)).subrange(old(buf)@.len() as int, wire(old(r)).len() as int),
        // short input is an error, never a short success
        is_suffix(wire(final(r)), wire(old(r))),
;

pub assume_specification<T: Ord>[std::cmp::min](a: T, b: T) -> (r: T)
    ensures r == (if b.cmp_spec(&a) == core::cmp::Ordering::Less { b } else { a });

pub assume_specification<'a>[ <&'a [u8] as Read>::read ](s: &mut &'a [u8], buf: &mut [u8]) -> (res: io::Result<usize>)
    ensures
        res matches Ok(n) && n == (if old(s)@.len() < old(buf)@.len() { old(s)@.len() } else { old(buf)@.len() }),
        final(buf)@.len() == old(buf)@.len(),
        final(buf)@.subrange(0, res.unwrap() as int) == old(s)@.subrange(0, res.unwrap() as int),
        final(s)@ == old(s)@.subrange(res.unwrap() as int, old(s)@.len() as int),
;

pub enum InvalidResponseKind { ChunkSize, Chunk }

pub const MAXB: usize = 64 * 1024;

// ---- spec of the line ending and of the future stream -----------------------------------
pub open spec fn le_len(w: Seq<u8>) -> Option<int> {
    if w.len() >= 1 && w[0] == 10u8 { Some(1) }
    else if w.len() >= 2 && w[0] == 13u8 && w[1] == 10u8 { Some(2) }
    else { None }
}

pub fn read_line_ending<R>(reader: &mut BufReader<R>) -> (res: io::Result<bool>)
where
    R: Read,
    ensures
        res matches Ok(true) ==> le_len(wire(old(reader))) matches Some(k) && wire(final(reader)) == wire(old(reader)).skip(k),
        res matches Ok(false) ==> le_len(wire(old(reader))) is None,
        is_suffix(wire(final(reader)), wire(old(reader))),
{
    let mut b = [0];
    reader.read_exact(&mut b)?;

    if &b == &[13u8] {
        reader.read_exact(&mut b)?;
    }

    Ok(&b == &[10u8])
}


// ------------------------------------------------------------------------------------------
pub open spec fn piece(rem: nat) -> nat { if rem < MAXB as nat { rem } else { MAXB as nat } }

pub uninterp spec fn size_line(w: Seq<u8>) -> Option<(nat, int)>;

pub open spec fn is_prefix(a: Seq<u8>, b: Seq<u8>) -> bool {
    a.len() <= b.len() && a =~= b.take(a.len() as int)
}

pub open spec fn fut(rem: nat, eof: bool, w: Seq<u8>) -> (Seq<u8>, bool)
    decreases w.len(),
{
    if rem == 0 {
        if eof { (Seq::<u8>::empty(), true) }
        else {
            match size_line(w) {
                None => (Seq::<u8>::empty(), false),
                Some((n, k)) =>
                    if k < 1 || k > w.len() { (Seq::<u8>::empty(), false) }
                    else if n == 0 { (Seq::<u8>::empty(), le_len(w.skip(k)).is_some()) }
                    else { fut_data(n, w.skip(k)) }
            }
        }
    } else { fut_data(rem, w) }
}

pub open spec fn fut_data(rem: nat, w: Seq<u8>) -> (Seq<u8>, bool)
    decreases w.len(), 
    when rem > 0
{
    let p = piece(rem);
    if w.len() < p { (Seq::<u8>::empty(), false) }
    else {
        let data = w.take(p as int);
        let w1 = w.skip(p as int);
        if rem - p == 0 {
            match le_len(w1) {
                None => (Seq::<u8>::empty(), false),
                Some(j) => { let r = fut(0, false, w1.skip(j)); (data + r.0, r.1) }
            }
        } else { let r = fut_data((rem - p) as nat, w1); (data + r.0, r.1) }
    }
}

pub struct ChunkedReader<R>
where
    R: Read,
{
    inner: BufReader<R>,
    buffer: Vec<u8>,
    consumed: usize,  // bytes consumed from `buffer`
    remaining: usize, // bytes remaining until next chunk
    reached_eof: bool,
}

impl<R> ChunkedReader<R>
where
    R: Read,
{
    pub closed spec fn inv(&self) -> bool {
        self.consumed <= self.buffer@.len() && (self.reached_eof ==> self.remaining == 0)
    }
    pub closed spec fn pending(&self) -> Seq<u8> {
        self.buffer@.skip(self.consumed as int)
    }
    pub closed spec fn owed(&self) -> (Seq<u8>, bool) {
        let f = fut(self.remaining as nat, self.reached_eof, wire(&self.inner));
        (self.pending() + f.0, f.1)
    }

    #[verifier::external_body]
    fn read_chunk_size(&mut self) -> (res: io::Result<usize>)
        ensures
            final(self).consumed == old(self).consumed,
            final(self).remaining == old(self).remaining,
            final(self).reached_eof == old(self).reached_eof,
            is_suffix(wire(&final(self).inner), wire(&old(self).inner)),
            res matches Ok(n) ==> size_line(wire(&old(self).inner)) matches Some((m, k)) && m == n
                && 1 <= k <= wire(&old(self).inner).len() && wire(&final(self).inner) == wire(&old(self).inner).skip(k),
    {
        unimplemented!()
    }

    fn fill_buf(&mut self) -> (res: io::Result<&[u8]>)
        requires old(self).inv(),
        ensures
            final(self).inv(),
            res matches Ok(s) ==> s@ == final(self).pending() && final(self).owed() == old(self).owed()
                && (s@.len() == 0 ==> old(self).owed() == (Seq::<u8>::empty(), true)),
            res is Err ==> is_prefix(final(self).owed().0, old(self).owed().0),
    {
        const MAX_BUFFER_LEN: usize = 64 * 1024;

        if self.buffer.len() == self.consumed && !(self.remaining == 0 && self.reached_eof) {
            if self.remaining == 0 {
                self.remaining = self.read_chunk_size()?;
                if self.remaining == 0 {
                    self.reached_eof = true;
                }
            }

            self.buffer.resize(cmp::min(self.remaining, MAX_BUFFER_LEN), 0);
            self.inner.read_exact(&mut self.buffer)?;
            self.consumed = 0;
            self.remaining -= self.buffer.len();

            if self.remaining == 0 && !read_line_ending(&mut self.inner)? {
                self.buffer.clear();
                self.reached_eof = true;

                return Err(InvalidResponseKind::Chunk.into());
            }
        }

        Ok(&self.buffer[self.consumed..])
    }

    fn consume(&mut self, amt: usize)
        requires old(self).inv(), amt <= old(self).pending().len(),
        ensures final(self).inv(), final(self).owed().0 == old(self).owed().0.skip(amt as int), final(self).owed().1 == old(self).owed().1,
    {
        self.consumed = cmp::min(self.consumed + amt, self.buffer.len());
    }
}

}
impl From<InvalidResponseKind> for io::Error {
    fn from(kind: InvalidResponseKind) -> io::Error {
        io::Error::new(io::ErrorKind::Other, "x")
    }
}
fn main(){}
