use vstd::prelude::*;
use std::io::{self, Read, Write, BufReader};
use http::{HeaderMap, StatusCode};
use url::Url;
verus! {
#[verifier::external_type_specification] #[verifier::external_body] pub struct ExIoError(io::Error);
#[verifier::external_type_specification] #[verifier::external_body] pub struct ExUrl(Url);
#[verifier::external_type_specification] #[verifier::external_body] pub struct ExStatusCode(StatusCode);
#[verifier::external_type_specification] #[verifier::external_body] #[verifier::accept_recursive_types(T)] pub struct ExHeaderMap<T>(HeaderMap<T>);
#[verifier::external_type_specification] #[verifier::external_body] pub struct ExHeaderValue(http::HeaderValue);

#[verifier::external_body] pub struct Error(Box<u8>);
pub type Result<T = ()> = std::result::Result<T, Error>;
pub enum ErrorKind { InvalidUrlHost, InvalidUrlPort, ConnectError { status_code: StatusCode, body: Vec<u8> } }
#[verifier::external_body] pub struct BaseStream(Box<u8>);
#[verifier::external_body] pub struct BufReaderWrite(Box<u8>);       // stand-in for buffers::BufReaderWrite<BaseStream>
#[verifier::external_body] pub struct TlsHandshaker(Box<u8>);
#[verifier::external_body] pub struct TlsStream(Box<u8>);
pub struct BaseSettings { pub max_headers: usize, pub accept_invalid_certs: bool, pub accept_invalid_hostnames: bool }

pub uninterp spec fn written(s: &BaseStream) -> Seq<u8>;       // everything written to the proxy connection so far
pub uninterp spec fn brw_written(s: &BufReaderWrite) -> Seq<u8>;
pub uninterp spec fn connect_head(remote_host: Seq<char>, remote_port: u16, proxy_host: Seq<char>, proxy_port: u16, proxy: &Url) -> Seq<u8>;
pub open spec fn is_connect_head_for(w: Seq<u8>, domain: Seq<char>) -> bool { exists|rp: u16, ph: Seq<char>, pp: u16, p: &Url| w == connect_head(domain, rp, ph, pp, p) }
pub uninterp spec fn tls_domain(t: &TlsStream) -> Seq<char>;
pub uninterp spec fn tls_flags(t: &TlsStream) -> (bool, bool);
pub uninterp spec fn tls_clear_prefix(t: &TlsStream) -> Seq<u8>;
pub uninterp spec fn url_host_str(u: &Url) -> Option<Seq<char>>;
pub uninterp spec fn hs_flags(h: &TlsHandshaker) -> (bool, bool);
pub uninterp spec fn status_ok(s: StatusCode) -> bool;

pub assume_specification [url::Url::host_str] (u: &Url) -> (r: Option<&str>) ensures (r matches Some(h) ==> url_host_str(u) == Some(h@)) && (r is None ==> url_host_str(u) is None);
pub assume_specification [url::Url::port_or_known_default] (u: &Url) -> (r: Option<u16>);
pub assume_specification [http::StatusCode::is_success] (s: &StatusCode) -> (r: bool) ensures r == status_ok(*s);

// R1: the five write!/format!/base64 statements of the CONNECT head, outlined as one wrapper (K-checked text)
#[verifier::external_body]
pub fn vp_write_connect_head(stream: &mut BaseStream, remote_host: &str, remote_port: u16, proxy_host: &str, proxy_port: u16, proxy_url: &Url) -> (r: io::Result<()>)
    ensures r is Ok ==> written(final(stream)) == written(old(stream)) + connect_head(remote_host@, remote_port, proxy_host@, proxy_port, proxy_url)
{ unimplemented!() }
#[verifier::external_body]
pub fn vp_brw_new(s: BaseStream) -> (r: BufReaderWrite) ensures brw_written(&r) == written(&s) { unimplemented!() }
#[verifier::external_body]
pub fn parse_response_head(reader: &mut BufReaderWrite, max_headers: usize) -> (r: Result<(StatusCode, HeaderMap)>)
    ensures brw_written(final(reader)) == brw_written(old(reader))
{ unimplemented!() }
#[verifier::external_body]
pub fn vp_take_read_to_end(s: &mut BufReaderWrite, n: u64, buf: &mut Vec<u8>) -> (r: io::Result<usize>)
    ensures final(buf)@.len() <= old(buf)@.len() + n, brw_written(final(s)) == brw_written(old(s))
{ unimplemented!() }
impl TlsHandshaker {
    #[verifier::external_body] pub fn new() -> (r: TlsHandshaker) ensures hs_flags(&r) == (false, false) { unimplemented!() }
    #[verifier::external_body] pub fn handshake(&self, domain: &str, stream: BufReaderWrite) -> (r: Result<TlsStream>)
        ensures r matches Ok(t) ==> tls_domain(&t) == domain@ && tls_flags(&t) == hs_flags(self) && tls_clear_prefix(&t) == brw_written(&stream)
    { unimplemented!() }
}
#[verifier::external_body]
pub fn apply_base_settings(handshaker: &mut TlsHandshaker, base_settings: &BaseSettings)
    ensures hs_flags(final(handshaker)) == (base_settings.accept_invalid_certs, base_settings.accept_invalid_hostnames)
{ unimplemented!() }
pub assume_specification[ <Error as From<ErrorKind>>::from ](e: ErrorKind) -> (r: Error);
pub assume_specification[ <Error as From<io::Error>>::from ](e: io::Error) -> (r: Error);

pub enum Tunnel { T { stream: Box<TlsStream> } }

fn initiate_tunnel(
    mut stream: BaseStream,
    proxy_url: &Url,
    remote_url: &Url,
    base_settings: &BaseSettings,
) -> (res: Result<Tunnel>)
    requires written(&stream) == Seq::<u8>::empty(),
    ensures
        res matches Ok(Tunnel::T { stream: t }) ==>
            url_host_str(remote_url) == Some(tls_domain(&*t))                                   // TLS verified against the origin's name
            && tls_flags(&*t) == (base_settings.accept_invalid_certs, base_settings.accept_invalid_hostnames)   // this request's flags
            && is_connect_head_for(tls_clear_prefix(&*t), tls_domain(&*t)),                     // only one CONNECT head went out in clear
{
    let remote_host = remote_url.host_str().ok_or(ErrorKind::InvalidUrlHost)?;
    let remote_port = remote_url.port_or_known_default().ok_or(ErrorKind::InvalidUrlPort)?;
    let proxy_host = proxy_url.host_str().ok_or(ErrorKind::InvalidUrlHost)?;
    let proxy_port = proxy_url.port_or_known_default().ok_or(ErrorKind::InvalidUrlPort)?;

    vp_write_connect_head(&mut stream, remote_host, remote_port, proxy_host, proxy_port, proxy_url)?;

    let mut stream = vp_brw_new(stream);
    let (status, _) = parse_response_head(&mut stream, base_settings.max_headers)?;

    if !status.is_success() {
        // Error initializaing tunnel, get status code and up to 10 KiB of data from the body.
        let mut buf = Vec::with_capacity(2048);
        vp_take_read_to_end(&mut stream, 10 * 1024, &mut buf)?;
        let err = ErrorKind::ConnectError {
            status_code: status,
            body: buf,
        };
        proof { assert(buf@.len() <= 10240); }
        return Err(err.into());
    }

    let mut handshaker = TlsHandshaker::new();
    apply_base_settings(&mut handshaker, base_settings);
    let stream = handshaker.handshake(remote_host, stream)?;

    Ok(Tunnel::T {
        stream: Box::new(stream),
    })
}
}
impl From<ErrorKind> for Error { fn from(k: ErrorKind) -> Error { unimplemented!() } }
impl From<io::Error> for Error { fn from(k: io::Error) -> Error { unimplemented!() } }
fn main(){}
