use vstd::prelude::*;
use std::io::{self, Read, BufReader, BufRead};
verus! {
#[verifier::external_type_specification]
#[verifier::external_body]
pub struct ExIoError(io::Error);
#[verifier::external_type_specification]
pub struct ExIoErrorKind(io::ErrorKind);
#[verifier::external_type_specification]
#[verifier::external_body]
#[verifier::accept_recursive_types(R)]
pub struct ExBufReader<R: ?Sized>(BufReader<R>);
#[verifier::external_trait_specification]
pub trait ExRead { type ExternalTraitSpecificationFor: Read; }

pub uninterp spec fn wire<R: ?Sized>(r: &BufReader<R>) -> Seq<u8>;

/// index of first `d` in w, or w.len()
pub open spec fn first_idx(w: Seq<u8>, d: u8) -> int decreases w.len() {
    if w.len() == 0 { 0 } else if w[0] == d { 0 } else { 1 + first_idx(w.skip(1), d) }
}
/// how many bytes `take(n).read_until(d)` consumes from w
pub open spec fn until_len(w: Seq<u8>, n: u64, d: u8) -> int {
    let lim = if (n as int) < w.len() { n as int } else { w.len() as int };
    let i = first_idx(w.take(lim), d);
    if i < lim { i + 1 } else { lim }
}

// R1 outline of `E.take(N).read_until(D, B)`; body is that very expression
#[verifier::external_body]
pub fn vp_take_read_until<R: Read>(r: &mut BufReader<R>, n: u64, d: u8, b: &mut Vec<u8>) -> (res: io::Result<usize>)
    ensures
        res matches Ok(k) ==> k == until_len(wire(old(r)), n, d)
            && final(b)@ == old(b)@ + wire(old(r)).take(k as int)
            && wire(final(r)) == wire(old(r)).skip(k as int),
{ r.take(n).read_until(d, b) }

pub fn read_line<R>(reader: &mut BufReader<R>, buf: &mut Vec<u8>, max_buf_len: u64) -> (res: io::Result<usize>)
where
    R: Read,
    ensures
        res matches Ok(n) ==> n == until_len(wire(old(reader)), max_buf_len, 10u8) && n >= 1
            && wire(final(reader)) == wire(old(reader)).skip(n as int)
            && wire(old(reader))[n - 1] == 10u8
            && final(buf)@.len() <= max_buf_len
            && final(buf)@ == (if n >= 2 && wire(old(reader))[n - 2] == 13u8 { wire(old(reader)).take(n - 2) } else { wire(old(reader)).take(n - 1) }),
{
    buf.clear();
    let n = vp_take_read_until(reader, max_buf_len, b'\n', buf)?;

    if buf.ends_with(&[13u8, 10u8]) {
        buf.truncate(buf.len() - 2);
    } else if buf.ends_with(&[10u8]) {
        buf.truncate(buf.len() - 1);
    } else {
        return Err(io::ErrorKind::UnexpectedEof.into());
    }

    Ok(n)
}
}
fn main(){}
