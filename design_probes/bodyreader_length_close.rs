use vstd::prelude::*;
use std::io::{self, BufRead, BufReader, Read, Take};
verus! {
#[verifier::external_type_specification] #[verifier::external_body] pub struct ExIoError(io::Error);
#[verifier::external_type_specification] #[verifier::external_body] #[verifier::accept_recursive_types(R)] pub struct ExBufReader<R: ?Sized>(BufReader<R>);
#[verifier::external_type_specification] #[verifier::external_body] #[verifier::accept_recursive_types(T)] pub struct ExTake<T>(Take<T>);
#[verifier::external_trait_specification] pub trait ExRead { type ExternalTraitSpecificationFor: Read; }

pub uninterp spec fn wire<R: ?Sized>(r: &BufReader<R>) -> Seq<u8>;
pub uninterp spec fn take_wire<T>(t: &Take<T>) -> Seq<u8>;
pub uninterp spec fn take_limit<T>(t: &Take<T>) -> u64;

// stand-in for the repo's socket type (streams.rs is outside this unit)
#[verifier::external_body] pub struct BaseStream(Box<u8>);
}
impl Read for BaseStream { fn read(&mut self, b: &mut [u8]) -> io::Result<usize> { unimplemented!() } }
verus! {
pub assume_specification<R: Read>[ <Take<R> as Read>::read ](t: &mut Take<R>, buf: &mut [u8]) -> (res: io::Result<usize>)
    ensures
        final(buf)@.len() == old(buf)@.len(),
        res matches Ok(n) ==> n <= old(buf)@.len() && n <= take_limit(old(t)) && n <= take_wire(old(t)).len()
            && final(buf)@.take(n as int) == take_wire(old(t)).take(n as int)
            && take_wire(final(t)) == take_wire(old(t)).skip(n as int)
            && take_limit(final(t)) == take_limit(old(t)) - n
            && (n == 0 ==> old(buf)@.len() == 0 || take_limit(old(t)) == 0 || take_wire(old(t)).len() == 0),
;
pub assume_specification<R: Read + ?Sized>[ <BufReader<R> as Read>::read ](t: &mut BufReader<R>, buf: &mut [u8]) -> (res: io::Result<usize>)
    ensures
        final(buf)@.len() == old(buf)@.len(),
        res matches Ok(n) ==> n <= old(buf)@.len() && n <= wire(old(t)).len()
            && final(buf)@.take(n as int) == wire(old(t)).take(n as int)
            && wire(final(t)) == wire(old(t)).skip(n as int)
            && (n == 0 ==> old(buf)@.len() == 0 || wire(old(t)).len() == 0),
;
#[verifier::external_body]
pub fn vp_take(r: BufReader<BaseStream>, n: u64) -> (t: Take<BufReader<BaseStream>>)
    ensures take_limit(&t) == n, take_wire(&t) == wire(&r),
{ r.take(n) }

pub enum BodyReader {
    Length(Take<BufReader<BaseStream>>),
    Close(BufReader<BaseStream>),
}

impl BodyReader {
    /// what this reader still owes and whether it will then end cleanly
    pub open spec fn owed(&self) -> (Seq<u8>, bool) {
        match self {
            BodyReader::Length(t) => {
                let w = take_wire(t); let l = take_limit(t) as int;
                if w.len() >= l { (w.take(l), true) } else { (w, false) }
            }
            BodyReader::Close(r) => (wire(r), true),
        }
    }
    fn read(&mut self, buf: &mut [u8]) -> (res: io::Result<usize>)
        ensures
            final(buf)@.len() == old(buf)@.len(),
            res matches Ok(n) ==> n <= old(buf)@.len() && n <= old(self).owed().0.len(),
            res matches Ok(n) ==> final(buf)@.take(n as int) =~= old(self).owed().0.take(n as int),
            res matches Ok(n) ==> final(self).owed().0 =~= old(self).owed().0.skip(n as int),
            res matches Ok(n) ==> final(self).owed().1 == old(self).owed().1,
            res matches Ok(n) ==> (n == 0 ==> old(buf)@.len() == 0 || old(self).owed() == (Seq::<u8>::empty(), true)),
    {
        match self {
            BodyReader::Length(r) => r.read(buf),
            BodyReader::Close(r) => r.read(buf),
        }
    }
}
}
fn main(){}
