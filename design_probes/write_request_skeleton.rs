use vstd::prelude::*;
use std::io::{self, Write, BufWriter, Result as IoResult};
use http::{HeaderMap, Method, Version};
use url::Url;
verus! {
#[verifier::external_type_specification] #[verifier::external_body] pub struct ExIoError(io::Error);
#[verifier::external_type_specification] #[verifier::external_body] #[verifier::accept_recursive_types(W)] pub struct ExBufWriter<W: ?Sized + Write>(BufWriter<W>);
#[verifier::external_type_specification] #[verifier::external_body] pub struct ExUrl(Url);
#[verifier::external_type_specification] #[verifier::external_body] pub struct ExMethod(Method);
#[verifier::external_type_specification] #[verifier::external_body] pub struct ExVersion(Version);
#[verifier::external_type_specification] #[verifier::external_body] pub struct ExHeaderValue(http::HeaderValue);
#[verifier::external_type_specification] #[verifier::external_body] #[verifier::accept_recursive_types(T)] pub struct ExHeaderMap<T>(HeaderMap<T>);

#[verifier::external_trait_specification]
#[verifier::external_trait_extension(WriteSpec via WriteSpecImpl)]
pub trait ExWrite {
    type ExternalTraitSpecificationFor: Write;
    spec fn sent(&self) -> Seq<u8>;
    fn flush(&mut self) -> (r: io::Result<()>)
        ensures final(self).sent() == old(self).sent();
}

#[verifier::external_body] pub struct Error(Box<u8>);
pub type Result<T = ()> = std::result::Result<T, Error>;
pub assume_specification[ <Error as From<io::Error>>::from ](e: io::Error) -> (r: Error);

#[derive(Clone, Copy)]
pub enum BodyKind { Empty, KnownLength(u64), Chunked }

pub trait Body {
    spec fn bytes(&self) -> Seq<u8>;
    spec fn kind_spec(&self) -> BodyKind;
    fn kind(&mut self) -> (r: IoResult<BodyKind>)
        ensures final(self).bytes() == old(self).bytes(), final(self).kind_spec() == old(self).kind_spec(),
            r matches Ok(k) ==> k == old(self).kind_spec();
    fn write<W: Write>(&mut self, writer: W) -> (r: IoResult<()>);
}
pub uninterp spec fn url_scheme(u: &Url) -> Seq<char>;
pub uninterp spec fn url_has_query(u: &Url) -> bool;
pub uninterp spec fn absolute_line(m: &Method, u: &Url) -> Seq<u8>;
pub uninterp spec fn origin_line(m: &Method, u: &Url) -> Seq<u8>;
pub uninterp spec fn headers_block(h: &HeaderMap) -> Seq<u8>;

pub assume_specification [url::Url::scheme] (u: &url::Url) -> (r: &str) ensures r@ == url_scheme(u);
pub assume_specification [url::Url::query] (u: &url::Url) -> (r: Option<&str>) ensures r.is_some() == url_has_query(u);
pub assume_specification [url::Url::path] (u: &url::Url) -> (r: &str);
pub assume_specification [http::Method::as_str] (u: &Method) -> (r: &str);

#[verifier::external_body]
pub fn vp_bufwriter_new<W: Write>(w: W) -> (r: BufWriter<W>) ensures r.sent() == w.sent() { BufWriter::new(w) }
#[verifier::external_body]
pub fn vp_http11() -> Version { Version::HTTP_11 }
#[verifier::external_body]
pub fn vp_str_eq(a: &str, b: &str) -> (r: bool) ensures r == (a@ == b@) { a == b }
#[verifier::external_body]
pub fn vp_write_abs<W: Write>(w: &mut W, m: &Method, u: &Url, v: Version) -> (r: IoResult<()>)
    ensures r is Ok ==> (*final(w)).sent() == (*old(w)).sent() + absolute_line(m, u)
{ write!(w, "{} {} {:?}\r\n", m.as_str(), u, v) }
#[verifier::external_body]
pub fn vp_write_origin_q<W: Write>(w: &mut W, m: &Method, path: &str, q: &str, v: Version, Ghost(u): Ghost<&Url>) -> (r: IoResult<()>)
    ensures r is Ok ==> (*final(w)).sent() == (*old(w)).sent() + origin_line(m, u)
{ write!(w, "{} {}?{} {:?}\r\n", m.as_str(), path, q, v) }

pub struct PreparedRequest<B> {
    url: Url,
    method: Method,
    body: B,
    headers: HeaderMap,
}
impl<B: Body> PreparedRequest<B> {
    pub closed spec fn sp_method(&self) -> Method { self.method }

    fn write_request_line<W>(&mut self, writer: W, url: &Url, proxy: Option<&Url>) -> (res: Result)
    where
        W: Write,
    {
        let mut writer = vp_bufwriter_new(writer);
        let version = vp_http11();

        if proxy.is_some() && vp_str_eq(url.scheme(), "http") {
            vp_write_abs(&mut writer, &self.method, url, version)?;
        } else if let Some(query) = url.query() {
            vp_write_origin_q(&mut writer, &self.method, url.path(), query, version, Ghost(url))?;
        }
        writer.flush()?;
        Ok(())
    }
}
}
impl From<io::Error> for Error { fn from(k: io::Error) -> Error { unimplemented!() } }
fn main(){}
