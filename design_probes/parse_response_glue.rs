use vstd::prelude::*;
use std::io::{self, BufReader, Read};
use std::sync::Arc;
use http::{header::{HeaderValue, TRANSFER_ENCODING}, HeaderMap, Method, StatusCode};
use url::Url;
verus! {
#[verifier::external_type_specification] #[verifier::external_body] pub struct ExUrl(Url);
#[verifier::external_type_specification] #[verifier::external_body] #[verifier::accept_recursive_types(T)] pub struct ExHeaderMap<T>(HeaderMap<T>);
#[verifier::external_type_specification] #[verifier::external_body] pub struct ExHeaderValue(HeaderValue);
#[verifier::external_type_specification] #[verifier::external_body] pub struct ExStatusCode(StatusCode);
#[verifier::external_type_specification] #[verifier::external_body] pub struct ExMethod(Method);
#[verifier::external_type_specification] #[verifier::external_body] #[verifier::accept_recursive_types(R)] pub struct ExBufReader<R: ?Sized>(BufReader<R>);
#[verifier::external_trait_specification] pub trait ExRead { type ExternalTraitSpecificationFor: Read; }

pub uninterp spec fn wire<R: ?Sized>(r: &BufReader<R>) -> Seq<u8>;
pub uninterp spec fn hm_view<T>(h: &HeaderMap<T>) -> Seq<(Seq<u8>, T)>;
pub uninterp spec fn status_u16(s: StatusCode) -> u16;
pub uninterp spec fn is_head(m: &Method) -> bool;

#[verifier::external_body] pub struct Error(Box<u8>);
pub type Result<T = ()> = std::result::Result<T, Error>;
#[verifier::external_body] pub struct BaseStream(Box<u8>);
pub uninterp spec fn stream_wire(s: &BaseStream) -> Seq<u8>;
#[verifier::external_body] pub struct BodyReader(Box<u8>);
#[verifier::external_body] pub struct CompressedReader(Box<u8>);
#[verifier::external_body] pub struct ResponseReader(Box<u8>);
pub uninterp spec fn body_wire(b: &BodyReader) -> Seq<u8>;
pub uninterp spec fn body_empty(b: &BodyReader) -> bool;
pub uninterp spec fn cr_body(c: &CompressedReader) -> BodyReader;
pub uninterp spec fn rr_inner(c: &ResponseReader) -> CompressedReader;

pub struct BaseSettings { pub max_headers: usize }
pub struct PreparedRequest<B> {
    url: Url,
    method: Method,
    body: B,
    headers: HeaderMap,
    pub base_settings: Arc<BaseSettings>,
}
pub uninterp spec fn head_len(w: Seq<u8>) -> int;

#[verifier::external_body]
pub fn vp_bufreader_new(s: BaseStream) -> (r: BufReader<BaseStream>) ensures wire(&r) == stream_wire(&s) { BufReader::new(s) }
#[verifier::external_body]
pub fn parse_response_head(reader: &mut BufReader<BaseStream>, max_headers: usize) -> (res: Result<(StatusCode, HeaderMap)>)
    ensures res is Ok ==> wire(final(reader)) == wire(old(reader)).skip(head_len(wire(old(reader))))
{ unimplemented!() }
impl BodyReader {
    #[verifier::external_body]
    pub fn new(headers: &HeaderMap, reader: BufReader<BaseStream>) -> (res: Result<BodyReader>)
        ensures res matches Ok(b) ==> body_wire(&b) == wire(&reader)
    { unimplemented!() }
}
impl CompressedReader {
    #[verifier::external_body]
    pub fn new<B>(headers: &HeaderMap, request: &PreparedRequest<B>, reader: BodyReader) -> (res: Result<CompressedReader>)
        ensures res matches Ok(c) ==> cr_body(&c) == reader
    { unimplemented!() }
}
impl ResponseReader {
    #[verifier::external_body]
    pub fn new<B>(headers: &HeaderMap, request: &PreparedRequest<B>, reader: CompressedReader) -> (res: ResponseReader)
        ensures rr_inner(&res) == reader
    { unimplemented!() }
}
#[verifier::external_body]
pub fn vp_remove_te(h: &mut HeaderMap)
    ensures hm_view(final(h)) == hm_view(old(h)).filter(|e: (Seq<u8>, HeaderValue)| e.0 != te_name())
{ h.remove(TRANSFER_ENCODING); }
pub open spec fn te_name() -> Seq<u8> { seq![116u8,114,97,110,115,102,101,114,45,101,110,99,111,100,105,110,103] }
pub assume_specification [<url::Url as Clone>::clone] (u: &url::Url) -> (r: url::Url) ensures r == *u;

pub struct Response {
    url: Url,
    status: StatusCode,
    headers: HeaderMap,
    reader: ResponseReader,
}

impl Response {
    pub closed spec fn sp_url(&self) -> Url { self.url }
    pub closed spec fn sp_headers(&self) -> HeaderMap { self.headers }
    pub closed spec fn sp_reader(&self) -> ResponseReader { self.reader }
}
pub fn parse_response<B>(reader: BaseStream, request: &PreparedRequest<B>, url: &Url) -> (res: Result<Response>)
    ensures
        res matches Ok(r) ==> r.sp_url() == *url
            && body_wire(&cr_body(&rr_inner(&r.sp_reader()))) == stream_wire(&reader).skip(head_len(stream_wire(&reader)))
            && (forall|i: int| 0 <= i < hm_view(&r.sp_headers()).len() ==> hm_view(&r.sp_headers())[i].0 != te_name()),
{
    let mut reader = vp_bufreader_new(reader);
    let (status, mut headers) = parse_response_head(&mut reader, request.base_settings.max_headers)?;
    let body_reader = BodyReader::new(&headers, reader)?;
    let compressed_reader = CompressedReader::new(&headers, request, body_reader)?;
    let response_reader = ResponseReader::new(&headers, request, compressed_reader);

    // Remove HOP-BY-HOP headers
    vp_remove_te(&mut headers);

    Ok(Response {
        url: url.clone(),
        status,
        headers,
        reader: response_reader,
    })
}
}
impl Read for BaseStream { fn read(&mut self, b: &mut [u8]) -> io::Result<usize> { unimplemented!() } }
fn main(){}
